"""C15 - equivalent inputs produce the same models."""
from __future__ import annotations

import ast
import copy
import json
import shutil
import tempfile
from pathlib import Path

from harness import lib, e2e, schemasem as ss

PID = "C15"
PROPS_V = "props/C15.v"
TABLES = ("InputTables", "UnicodeTables", "BaseModelAttrs")
RULE = ("correspondence: the real loader load_yaml(text) vs json.loads(text) on JSON texts from a JSON grammar (numbers in every JSON spelling, "
        "escapes, non-ASCII, timestamps-as-strings, nesting); falsifier: per schema the representation matrix {JSON text, YAML text} x {str, Path} x "
        "{definitions, $defs, components.schemas} x {draft-4 flags, numeric bounds} (plus OpenAPI discriminator documents handed over twice in one "
        "process) - every representation must give the same classes, compared per class by AST. non-trivial = distinct (schema, representation)")
TRUSTED = ["PyYAML (the loader itself is third-party: compared, not modelled)", "yaml.safe_dump produces the YAML rendition of a document",
           "class comparison by ast.dump of the ClassDef nodes"]
ASSUMPTIONS = ["draft theorem over the modelled schema sub-language; loader equivalence is sampled, not proved"]

V2 = "pydantic_v2.BaseModel"


# ---------------------------------------------------------------------------------------------------
# JSON texts


def json_text(rng, depth=0):
    r = rng.random()
    if depth >= 3 or r < 0.45:
        k = rng.random()
        if k < 0.35:
            return rng.choice(["0", "-0", "1", "-17", "123456789012345678901234567890", "0.5", "-2.25", "1.0E-2", "2.5e+10", "10.0", "1.25e-7", "-3.0E+2"])
            # (a JSON number whose exponent has no sign - 1.5e3, 1e22 - is read as a string by the YAML 1.1 resolver: known finding C15-exponent-without-sign)
        if k < 0.75:
            s = rng.choice(["a", "", "yes", "no", "null", "~", "true", "1", "1.5", "2001-01-01", "2001-01-01T00:00:00Z", "0x1F", "010", "1_000", "é", "日本",
                            "a: b", "- x", "#c", "{x}", "[y]", "a\\nb", "tab\\there", "q\\\"q", "back\\\\slash", "\\u00e9", "\\u2028", "=", "<<", "!!str x",
                            "&a", "*a", "?", "|", ">", "%", "@", "`", " lead", "trail ", ".inf", ".nan", "1e3", "+1", "0o7"])
            # (a surrogate pair escape - what json.dumps writes for a non-BMP character - is rejected by the YAML scanner: known finding C15-surrogate-escape)
            return '"' + s + '"'
        return rng.choice(["true", "false", "null"])
    if r < 0.7:
        return "[" + ", ".join(json_text(rng, depth + 1) for _ in range(rng.choice([0, 1, 2, 3]))) + "]"
    keys = rng.sample(["a", "b", "yes", "no", "null", "1", "1.5", "on", "x y", "é", "~", "k:", "<<", "true", ""], rng.choice([0, 1, 2, 3]))
    sep = rng.choice([": ", ":", " : "])
    return "{" + ", ".join(json.dumps(k) + sep + json_text(rng, depth + 1) for k in keys) + "}"


TRICKY = ["1e3", "1E-5", "2e+7", "1.5e3", "1.e3", "1.0e+3", "-1e3", "+1E5", ".5", "5.", "1_000", "1_0e1_0", "0x1F", "0o17", "017", "0b101", "1:30", "12:30:45",
          "190:20:30.15", "~", "null", "Null", "yes", "No", "on", "OFF", "y", "n", "true", "False", "=", "<<", "2001-01-01", "2001-12-14t21:59:43.10-05:00",
          "2001-12-14 21:59:43.10 -5", ".inf", "-.Inf", ".NaN", "1e", "e3", "1e3e4", "1.5.2", "", " 1e3", "1e3 ", "0", "-0", "+1", "1e+", "0e0", "00e1", "9E99"]


def tricky_strings(rng, n):
    out = list(TRICKY)
    alphabet = "0123456789eE+-._:xob"
    while len(out) < n:
        out.append("".join(rng.choice(alphabet) for _ in range(rng.choice([1, 2, 3, 3, 4, 5, 6]))))
    return out


def same_value(a, b):
    if isinstance(a, bool) or isinstance(b, bool) or a is None or b is None:
        return a is b
    if isinstance(a, (int, float)) and isinstance(b, (int, float)):
        return a == b and isinstance(a, float) == isinstance(b, float)
    if type(a) is not type(b):
        return False
    if isinstance(a, dict):
        return list(a.keys()) == list(b.keys()) and all(same_value(a[k], b[k]) for k in a)
    if isinstance(a, list):
        return len(a) == len(b) and all(same_value(x, y) for x, y in zip(a, b))
    return a == b


def correspond(ctx):
    from datamodel_code_generator import load_yaml
    rng = ctx.rng("corr")
    bad = 0
    for _ in range(ctx.n(1500, 20000)):
        t = json_text(rng)
        ctx.count("eval_loader")
        ctx.nontrivial(t)
        want = json.loads(t)
        try:
            got = load_yaml(t)
        except Exception as e:  # noqa: BLE001
            got = e
        if isinstance(got, Exception) or not same_value(want, got):
            bad += 1
            if bad <= 5:
                ctx.tie_broken("correspondence", f"load_yaml differs from json.loads on {t[:200]!r}: {str(got)[:200]!r} vs {want!r}"[:600], "", hint=("json", t))
    # strings that look like other YAML scalars: written by yaml.safe_dump (plain where the stock resolver takes them for
    # strings, quoted otherwise) and read back by the patched loader they must still be the same strings
    import yaml
    for sv in tricky_strings(rng, ctx.n(600, 8000)):
        for v in (sv, [sv], {"enum": [sv, "x"], "default": sv}, {sv: 1}):
            ctx.count("eval_yaml_roundtrip")
            text = yaml.safe_dump(v, sort_keys=False, allow_unicode=True)
            try:
                got = load_yaml(text)
            except Exception as e:  # noqa: BLE001
                got = e
            if isinstance(got, Exception) or not same_value(v, got) or repr(v) != repr(got):
                bad += 1
                if bad <= 5:
                    ctx.tie_broken("correspondence", f"load_yaml(yaml.safe_dump(v)) differs from v for {v!r}: {str(got)[:200]!r}"[:600], "", hint=("string", sv))
        ctx.nontrivial("s:" + sv)
    ctx.count("disagreements", bad)
    ctx.sample({"json_text": json_text(ctx.rng("sample"))})


# ---------------------------------------------------------------------------------------------------
# representations


def rewrite_refs(s, old, new):
    if isinstance(s, dict):
        return {k: (v.replace(old, new) if k == "$ref" and isinstance(v, str) else rewrite_refs(v, old, new)) for k, v in s.items()}
    if isinstance(s, list):
        return [rewrite_refs(v, old, new) for v in s]
    return s


def to_draft4(s, rng):
    """numeric exclusive bounds written with boolean flags; an explicit false flag next to some inclusive bounds"""
    if isinstance(s, list):
        return [to_draft4(v, rng) for v in s]
    if not isinstance(s, dict):
        return s
    out = {k: to_draft4(v, rng) for k, v in s.items()}
    if out.get("type") in ("integer", "number") or isinstance(out.get("type"), list):
        for flag, bound in (("exclusiveMinimum", "minimum"), ("exclusiveMaximum", "maximum")):
            if isinstance(out.get(flag), (int, float)) and not isinstance(out.get(flag), bool) and bound not in out:
                out[bound] = out.pop(flag)
                out[flag] = True
            elif bound in out and flag not in out and rng.random() < 0.5:
                out[flag] = False
    return out


def classes_of(text):
    tree = ast.parse(text)
    return {n.name: ast.dump(n) for n in tree.body if isinstance(n, ast.ClassDef)}


def run(input_, file_type, opts, kind=V2):
    g = e2e.generate(input_, kind=kind, file_type=file_type, **opts)
    if not g.ok:
        return None, str(g.error)
    return g.text, None


def representations(rng, defs, root, workdir):
    """name -> (input, file_type).  The definitions hold the whole set of schemas (Root among them)."""
    alldefs = dict(defs, Root=root)
    base = {"definitions": alldefs}
    reps = {"json/str/definitions/draft6": (json.dumps(base), "jsonschema")}
    import yaml
    reps["yaml/str/definitions/draft6"] = (yaml.safe_dump(base, sort_keys=False, allow_unicode=True), "jsonschema")
    p = workdir / "schema.json"
    p.write_text(json.dumps(base))
    reps["json/path/definitions/draft6"] = (p, "jsonschema")
    py = workdir / "schema.yaml"
    py.write_text(yaml.safe_dump(base, sort_keys=False))
    reps["yaml/path/definitions/draft6"] = (py, "jsonschema")
    d2 = rewrite_refs({"$defs": alldefs}, "#/definitions/", "#/$defs/")
    reps["json/str/$defs/draft6"] = (json.dumps(d2), "jsonschema")
    oa = {"openapi": "3.0.0", "info": {"title": "t", "version": "1"}, "paths": {},
          "components": {"schemas": rewrite_refs(alldefs, "#/definitions/", "#/components/schemas/")}}
    reps["json/str/components/draft6"] = (json.dumps(oa), "openapi")
    reps["yaml/str/components/draft6"] = (yaml.safe_dump(oa, sort_keys=False), "openapi")
    d4 = to_draft4(base, rng)
    if d4 != base:
        reps["json/str/definitions/draft4"] = (json.dumps(d4), "jsonschema")
        reps["yaml/str/definitions/draft4"] = (yaml.safe_dump(d4, sort_keys=False), "jsonschema")
    return reps


def uses_openapi_only_semantics(defs, root):
    text = json.dumps([defs, root])
    return '"null"' in text or "null]" in text or '"const"' in text


def compare_matrix(rng, defs, root, opts):
    workdir = Path(tempfile.mkdtemp(prefix="c15", dir=lib.WORK))
    try:
        reps = representations(rng, defs, root, workdir)
        results = {}
        for name, (inp, ft) in reps.items():
            text, err = run(inp, ft, opts)
            results[name] = (classes_of(text) if text is not None else None, err)
        ref_name = "json/str/definitions/draft6"
        ref, err = results[ref_name]
        if ref is None:
            return None, len(reps)
        for name, (cls, err) in results.items():
            if name == ref_name:
                continue
            if cls is None:
                return f"{name}: generation fails ({err}) while {ref_name} succeeds", len(reps)
            a = {k: v for k, v in ref.items() if k != "Model"}
            b = {k: v for k, v in cls.items() if k != "Model"}
            if a.keys() != b.keys():
                return f"{name}: classes {sorted(set(a) ^ set(b))} are not in both outputs (against {ref_name})", len(reps)
            for k in a:
                if a[k] != b[k]:
                    return f"{name}: class {k} differs from {ref_name}", len(reps)
        return None, len(reps)
    finally:
        shutil.rmtree(workdir, ignore_errors=True)


def gen_discriminated(rng):
    kinds = rng.sample(["Cat", "Dog", "Lizard"], 2)
    pname = rng.choice(["pet-type", "petType", "pet_type", "kind"])
    declare = rng.random() < 0.4
    schemas = {}
    for k in kinds:
        props = {"name": {"type": "string"}}
        if declare:
            props[pname] = {"type": "string"}
        schemas[k] = {"type": "object", "properties": props, "required": ["name"] + ([pname] if declare else [])}
    schemas["Pet"] = {rng.choice(["oneOf", "anyOf"]): [{"$ref": f"#/components/schemas/{k}"} for k in kinds], "discriminator": {"propertyName": pname}}
    schemas["Root"] = {"type": "object", "properties": {"pet": {"$ref": "#/components/schemas/Pet"}}, "required": ["pet"]}
    return {"openapi": "3.0.0", "info": {"title": "t", "version": "1"}, "paths": {}, "components": {"schemas": schemas}}


def compare_twice(doc, opts):
    """the same OpenAPI text handed over as str, as Path and as str again in one process"""
    workdir = Path(tempfile.mkdtemp(prefix="c15", dir=lib.WORK))
    try:
        text = json.dumps(doc)
        p = workdir / "api.json"
        p.write_text(text)
        outs = []
        for inp in (text, p, text):
            t, err = run(inp, "openapi", opts)
            outs.append(classes_of(t) if t is not None else ("error", err))
        for i, o in enumerate(outs[1:], 1):
            if o != outs[0]:
                which = ["str", "Path", "str again"][i]
                if isinstance(o, dict) and isinstance(outs[0], dict):
                    diff = [k for k in set(o) | set(outs[0]) if o.get(k) != outs[0].get(k)]
                    return f"handing the same text over as {which} changes classes {sorted(diff)}"
                return f"handing the same text over as {which}: {str(o)[:200]} vs {str(outs[0])[:200]}"
        return None
    finally:
        shutil.rmtree(workdir, ignore_errors=True)


def json_vs_yaml(jt):
    import yaml
    a, ea = run(jt, "jsonschema", {})
    b, eb = run(yaml.safe_dump(json.loads(jt), sort_keys=False, allow_unicode=True), "jsonschema", {})
    if (a is None) != (b is None):
        return f"only one of the JSON text and its YAML rendition generates ({ea or eb})"
    if a is not None and classes_of(a) != classes_of(b):
        return "the JSON text and its YAML rendition give different classes"
    return None


def draft4_pairs():
    """every combination of the two draft-4 boolean flags (absent / false / true) on integer and number members with both
    bounds, against the draft-6 way of writing the same bounds"""
    for t in ("integer", "number"):
        for fmin in (None, False, True):
            for fmax in (None, False, True):
                d4 = {"type": t, "minimum": 5, "maximum": 10}
                d6 = {"type": t}
                if fmin is not None:
                    d4["exclusiveMinimum"] = fmin
                if fmax is not None:
                    d4["exclusiveMaximum"] = fmax
                d6["exclusiveMinimum" if fmin else "minimum"] = 5
                d6["exclusiveMaximum" if fmax else "maximum"] = 10
                wrap = lambda m: {"title": "Root", "type": "object", "properties": {"m": m, "l": {"type": "array", "items": m}}, "required": ["m"]}
                yield (t, fmin, fmax), wrap(d4), wrap(d6)


def compare_docs(a, b, opts, kind=V2):
    ta, ea = run(json.dumps(a), "jsonschema", opts, kind)
    tb, eb = run(json.dumps(b), "jsonschema", opts, kind)
    if (ta is None) != (tb is None):
        return f"only one of the two equivalent documents generates ({ea or eb})"
    if ta is not None and classes_of(ta) != classes_of(tb):
        return "the two equivalent documents give different classes"
    return None


EXPONENTS = ["1e-05", "1e+16", "1E3", "1.5e3", "2e5", "1.0e-05", "1e22", "-4E-2"]


def str_vs_path(doc_text, file_type="jsonschema", suffix=".json"):
    """the same text handed over as a string and as a file (the suffix must not matter either)"""
    workdir = Path(tempfile.mkdtemp(prefix="c15", dir=lib.WORK))
    try:
        p = workdir / ("doc" + suffix)
        p.write_text(doc_text)
        a, ea = run(doc_text, file_type, {})
        b, eb = run(p, file_type, {})
        if (a is None) != (b is None):
            return f"the text generates as {'a string' if a is not None else 'a file'} only ({ea or eb})"
        if a is not None and classes_of(a) != classes_of(b):
            diff = [k for k in set(classes_of(a)) | set(classes_of(b)) if classes_of(a).get(k) != classes_of(b).get(k)]
            return f"handing the same text over as a {suffix} file changes classes {sorted(diff)}"
        return None
    finally:
        shutil.rmtree(workdir, ignore_errors=True)


def exponent_texts():
    """JSON texts with numbers in exponent notation in positions the schema model does not coerce"""
    for e in EXPONENTS:
        yield ('{"title": "Root", "type": "object", "properties": {"tolerance": {"type": "number", "default": %s}, '
               '"scale": {"enum": [%s, 1]}, "k": {"const": %s}, "bounded": {"type": "number", "minimum": %s}}}' % (e, e, e, e))


def auto_detect_docs():
    """one OpenAPI document (several KB of components) written with its keys in different orders; the input type is left to be inferred"""
    schemas = {f"Thing{i}": {"type": "object", "description": "d" * 40, "properties": {f"field_{j}": {"type": "string", "description": "text " * 6} for j in range(6)}} for i in range(6)}
    body = {"info": {"title": "t", "version": "1"}, "paths": {}, "components": {"schemas": schemas}}
    first = {"openapi": "3.0.0", **body}
    last = {**body, "openapi": "3.0.0"}
    import yaml
    return {"json/openapi-first": json.dumps(first), "json/openapi-last": json.dumps(last), "json/sorted": json.dumps(first, sort_keys=True),
            "yaml/openapi-first": yaml.safe_dump(first, sort_keys=False), "yaml/sorted-keys": yaml.safe_dump(first), "yaml/openapi-last": yaml.safe_dump(last, sort_keys=False)}


def auto_detect():
    docs = auto_detect_docs()
    ref, err = run(docs["json/openapi-first"], "openapi", {})
    if ref is None:
        return None
    for name, text in docs.items():
        t, e = run(text, "auto", {})
        if t is None:
            return f"{name}: generation with the input type left to be inferred fails ({e}); with the type given it succeeds"
        if classes_of(t) != classes_of(ref):
            return f"{name}: with the input type left to be inferred the classes differ from the OpenAPI reading ({sorted(set(classes_of(t)) ^ set(classes_of(ref)))[:6]})"
    return None


def in_known_class(defs, root, opts):
    return False


def falsify(ctx):
    rng = ctx.rng("fals")
    seen = 0

    def report(key, what, replay):
        nonlocal seen
        seen += 1
        if seen <= 6:
            ctx.violation(key, what, replay)

    for h in ctx.hints:
        if h[0] == "json":
            # a JSON text the loader reads differently: does it change a generated model? (value used as enum member / default)
            try:
                v = json.loads(h[1])
            except Exception:  # noqa: BLE001
                continue
            doc = {"title": "Root", "type": "object", "properties": {"a": {"enum": [v] if not isinstance(v, (dict, list)) else ["x"]}}}
            jt = '{"title": "Root", "type": "object", "properties": {"a": {"enum": [' + (h[1] if not isinstance(v, (dict, list)) else '"x"') + ']}}}'
            import yaml
            why = json_vs_yaml(jt)
            if why:
                report("json-vs-yaml:" + h[1][:100], f"JSON text {h[1][:100]!r}: {why}", {"json_text": jt})
    # string values that look like other scalars, as enum members / defaults / const: JSON text vs its YAML rendition
    for sv in (TRICKY if ctx.thorough else TRICKY[::2] + [h[1] for h in ctx.hints if h[0] == "string"][:5]):
        jt = json.dumps({"title": "Root", "type": "object", "properties": {"a": {"type": "string", "enum": [sv, "x"]}, "b": {"type": "string", "default": sv}}})
        ctx.count("eval_e2e", 2)
        ctx.bucket("family", "string-lookalike")
        ctx.nontrivial("lookalike:" + sv)
        why = json_vs_yaml(jt)
        if why:
            report("json-vs-yaml:" + sv, f"string value {sv!r}: {why}", {"json_text": jt})
    # the same JSON text as a string and as a .json / .yaml / suffix-less file, with exponent numbers where nothing coerces them
    for jt in exponent_texts():
        for suffix in (".json", ".yaml", ""):
            ctx.count("eval_e2e", 2)
            ctx.bucket("family", "str-vs-path")
            ctx.nontrivial("svp:" + jt[60:90] + suffix)
            why = str_vs_path(jt, "jsonschema", suffix)
            if why:
                report(f"str-vs-path:{suffix}:{jt[60:100]}", f"JSON text with exponent numbers: {why}", {"str_vs_path": [jt, "jsonschema", suffix]})
    # local references that point past a named schema (into its properties), as a string and as a file
    for cont in ("definitions", "$defs"):
        docp = {"title": "Root", "type": "object", cont: {"Pet": {"type": "object", "properties": {"tag": {"type": "object", "properties": {"t": {"type": "string"}}},
                                                                                                  "n": {"type": "integer"}}}},
                "properties": {"first": {"$ref": f"#/{cont}/Pet/properties/tag"}, "pet": {"$ref": f"#/{cont}/Pet"}, "own": {"$ref": "#/properties/pet"}}}
        for suffix in (".json", ".yaml"):
            ctx.count("eval_e2e", 2)
            ctx.bucket("family", "str-vs-path")
            ctx.nontrivial("svp-pointer:" + cont + suffix)
            why = str_vs_path(json.dumps(docp), "jsonschema", suffix)
            if why:
                report(f"str-vs-path:pointer:{cont}:{suffix}", f"local pointer references past a named schema ({cont}): {why}", {"str_vs_path": [json.dumps(docp), "jsonschema", suffix]})
    # a named schema that is only allOf [one $ref] to an enumeration / an object / a scalar: the same classes in every container
    alias_defs = {"Status": {"type": "string", "enum": ["active", "blocked"]}, "PetStatus": {"description": "d", "allOf": [{"$ref": "#/definitions/Status"}]},
                  "Thing": {"type": "object", "properties": {"a": {"type": "integer"}}}, "ThingAlias": {"allOf": [{"$ref": "#/definitions/Thing"}]},
                  "Code": {"type": "string", "minLength": 2}, "CodeAlias": {"allOf": [{"$ref": "#/definitions/Code"}]},
                  "Statuses": {"type": "array", "items": {"$ref": "#/definitions/Status"}, "allOf": [{"$ref": "#/definitions/Status"}]}}
    for drop, referenced in (((), True), (("Statuses",), True), (("Statuses",), False), ((), False)):
        defs = {k: v for k, v in alias_defs.items() if k not in drop}
        root = ({"type": "object", "properties": {"s": {"$ref": "#/definitions/PetStatus"}, "t": {"$ref": "#/definitions/ThingAlias"}, "c": {"$ref": "#/definitions/CodeAlias"}}}
                if referenced else {"type": "object", "properties": {"st": {"$ref": "#/definitions/Status"}, "n": {"type": "integer"}}})
        why, n = compare_matrix(rng, defs, root, {})
        ctx.count("eval_e2e", n)
        ctx.bucket("family", "alias-definitions")
        ctx.nontrivial("alias:" + ",".join(drop) + str(referenced))
        if why:
            report(f"matrix:{{}}:{json.dumps([defs, root], sort_keys=False)}", f"single-reference allOf definitions: {why}", {"defs": defs, "root": root, "opts": {}})
    ctx.count("eval_e2e", 7)
    ctx.bucket("family", "auto-detect")
    ctx.nontrivial("auto-detect")
    why = auto_detect()
    if why:
        report("auto-detect", why, {"auto_detect": True})
    # the draft-4 flags in every combination vs the numeric form
    for (t, fmin, fmax), d4, d6 in draft4_pairs():
        for opts in ({}, {"field_constraints": True}):
            ctx.count("eval_e2e", 2)
            ctx.bucket("family", "draft4-flags")
            ctx.nontrivial(f"draft4:{t}:{fmin}:{fmax}:{sorted(opts)}")
            why = compare_docs(d4, d6, opts)
            if why:
                report(f"draft4:{t}:{fmin}:{fmax}:{sorted(opts)}", f"{t} member with exclusiveMinimum={fmin} exclusiveMaximum={fmax} (draft 4) vs the numeric form, {opts}: {why}",
                       {"pair": [d4, d6], "opts": opts})
    # a named schema and an inline member whose derived class name is the same, in every declaration order, with and without
    # an earlier reference to the named one: the numbering of the two classes must not depend on the container
    import itertools
    named = {"Address": {"type": "object", "properties": {"street": {"type": "string"}}},
             "Status": {"type": "string", "enum": ["open", "closed"]},
             "Customer": {"type": "object", "properties": {"address": {"type": "object", "properties": {"zip": {"type": "string"}}},
                                                           "status": {"type": "string", "enum": ["new", "old"]},
                                                           "tags": {"type": "array", "items": {"type": "object", "properties": {"t": {"type": "string"}}}}}},
             "Tag": {"type": "object", "properties": {"label": {"type": "string"}}},
             "Order": {"type": "object", "properties": {"ship_to": {"$ref": "#/definitions/Address"}, "state": {"$ref": "#/definitions/Status"}, "tag": {"$ref": "#/definitions/Tag"}}}}
    orders = list(itertools.permutations(["Address", "Status", "Customer", "Order"]))
    for order in (orders if ctx.thorough else orders[::3]):
        defs = {k: named[k] for k in (*order, "Tag")}
        root = {"type": "object", "properties": {"c": {"$ref": "#/definitions/Customer"}}}
        why, n = compare_matrix(rng, defs, root, {})
        ctx.count("eval_e2e", n)
        ctx.bucket("family", "inline-vs-named")
        ctx.nontrivial("clash:" + ",".join(order))
        if why:
            report(f"matrix:{{}}:{json.dumps([defs, root], sort_keys=False)}", f"declaration order {order}: {why}", {"defs": defs, "root": root, "opts": {}})
    option_pool = [{}, {}, {"field_constraints": True}, {"snake_case_field": True}, {"use_standard_collections": True}, {"use_title_as_name": True}]
    for i in range(ctx.n(28, 500)):
        doc = ss.gen_document(rng)
        defs = doc.pop("definitions")
        doc.pop("title", None)
        root = doc
        opts = rng.choice(option_pool)
        if in_known_class(defs, root, opts):
            ctx.count("outside_guard")
            continue
        why, n = compare_matrix(rng, defs, root, opts)
        ctx.count("eval_e2e", n)
        ctx.bucket("family", "matrix")
        ctx.nontrivial(json.dumps([defs, root], sort_keys=True) + json.dumps(opts, sort_keys=True))
        if why:
            report(f"matrix:{json.dumps(opts, sort_keys=True)}:{json.dumps([defs, root], sort_keys=True)}", f"{opts}: {why}", {"defs": defs, "root": root, "opts": opts})
    for i in range(ctx.n(20, 300)):
        doc = gen_discriminated(rng)
        opts = rng.choice([{}, {"snake_case_field": True}, {"field_constraints": True}])
        ctx.count("eval_e2e", 3)
        ctx.bucket("family", "same-text-twice")
        ctx.nontrivial(json.dumps(doc, sort_keys=True) + json.dumps(opts, sort_keys=True))
        why = compare_twice(doc, opts)
        if why:
            report(f"twice:{json.dumps(opts, sort_keys=True)}:{json.dumps(doc, sort_keys=True)}", f"{opts}: {why}", {"openapi": doc, "opts": opts})
    ctx.sample({"representations": ["json/str/definitions/draft6", "yaml/str/...", "json/path/...", "yaml/path/...", "json/str/$defs", "json|yaml/str/components", "json|yaml/str/definitions/draft4"]})


def _replay(r):
    if "str_vs_path" in r:
        return str_vs_path(*r["str_vs_path"])
    if "auto_detect" in r:
        return auto_detect()
    if "pair" in r:
        return compare_docs(r["pair"][0], r["pair"][1], r["opts"])
    if "openapi" in r:
        return compare_twice(r["openapi"], r["opts"])
    if "json_text" in r:
        return json_vs_yaml(r["json_text"])
    return compare_matrix(lib.rng_for(0, "replay"), r["defs"], r["root"], r["opts"])[0]


def replay_finding(ctx, f):
    return _replay(f["replay"]) is not None


def replay(ctx, payload):
    r = payload.get("replay", payload)
    if not any(k in r for k in ("openapi", "json_text", "defs", "pair", "str_vs_path", "auto_detect")):
        print(json.dumps(payload, indent=1)[:3000])
        return 0
    why = _replay(r)
    print("replay:", why or "no violation")
    return 1 if why else 0
