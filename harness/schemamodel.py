"""The Python side of M10 (coq/model/Schema.v): schema terms of the modelled sub-language, their JSON Schema
documents and driver tokens, JSON instances as tokens, a generator of terms, and the canonicaliser that reads
the real generator's output (AST) into the text form `show_ty (gen ...)` prints.

term := ("I", {min,max,xmin,xmax,mult})   bounds in half units, xmin/xmax: None | True | False | int
      | ("N",) | ("S", lo, hi) | ("B",) | ("Z",) | ("E", [values]) | ("?", term)
      | ("A", term, lo, hi) | ("M", term) | ("U", [terms]) | ("J", [(name, required, term)], closed)
"""
from __future__ import annotations

import ast

from harness import lib

# (no name that is its own class name - "Self", "Δx": the parser then renames the member to <name>_1, which M10 does not model)
NAME_POOL = ["id", "name", "first-name", "class", "value", "count", "tags", "x_y", "self", "data", "n1", "kind", "_id", "camelCase", "schema",
             "1st", "a b", "copy", "in", "é", "δx", "json", "model_dump", "dict", "fields", "__x", "a.b", "x-"]


def enc(s):
    return lib.enc_str(s)


def _o(x):
    return "~" if x is None else str(x)


def tokens(t):
    k = t[0]
    if k == "I":
        c = t[1]
        x = lambda v: "~" if v is None else ("t" if v is True else ("f" if v is False else str(v)))
        return f"I {_o(c.get('min'))} {_o(c.get('max'))} {x(c.get('xmin'))} {x(c.get('xmax'))} {_o(c.get('mult'))}"
    if k in ("N", "B", "Z", "Y"):
        return k
    if k == "F":
        c = t[1]
        x = lambda v: "~" if v is None else ("t" if v is True else ("f" if v is False else str(v)))
        return f"F {_o(c.get('min'))} {_o(c.get('max'))} {x(c.get('xmin'))} {x(c.get('xmax'))}"
    if k == "S":
        return f"S {_o(t[1])} {_o(t[2])}"
    if k == "E":
        return f"E {len(t[1])} " + " ".join(enc(v) for v in t[1])
    if k == "?":
        return "? " + tokens(t[1])
    if k == "A":
        return f"A {_o(t[2])} {_o(t[3])} " + tokens(t[1])
    if k == "M":
        return "M " + tokens(t[1])
    if k == "U":
        return f"U {len(t[1])} " + " ".join(tokens(a) for a in t[1])
    if k == "J":
        return f"J {int(t[2])} {len(t[1])} " + " ".join(f"{enc(n)} {int(r)} {tokens(s)}" for n, r, s in t[1])
    raise ValueError(k)


def json_tokens(v):
    if v is None:
        return "n"
    if v is True:
        return "t"
    if v is False:
        return "f"
    if isinstance(v, int):
        return f"i {v}"
    if isinstance(v, float):
        return f"d {int(round(v * 2))}"
    if isinstance(v, str):
        return "s " + enc(v)
    if isinstance(v, list):
        return f"a {len(v)} " + " ".join(json_tokens(x) for x in v)
    if isinstance(v, dict):
        return f"o {len(v)} " + " ".join(f"{enc(k)} {json_tokens(x)}" for k, x in v.items())
    raise ValueError(v)


def half(b):
    return b // 2 if b % 2 == 0 else b / 2


def to_jsonschema(t):
    k = t[0]
    if k == "I":
        c, s = t[1], {"type": "integer"}
        if c.get("min") is not None:
            s["minimum"] = half(c["min"])
        if c.get("max") is not None:
            s["maximum"] = half(c["max"])
        for key, f in (("exclusiveMinimum", "xmin"), ("exclusiveMaximum", "xmax")):
            if c.get(f) is not None:
                s[key] = c[f] if isinstance(c[f], bool) else half(c[f])
        if c.get("mult") is not None:
            s["multipleOf"] = c["mult"]
        return s
    if k == "N":
        return {"type": "number"}
    if k == "F":
        c, s = t[1], {"type": "number"}
        if c.get("min") is not None:
            s["minimum"] = half(c["min"])
        if c.get("max") is not None:
            s["maximum"] = half(c["max"])
        for key, f in (("exclusiveMinimum", "xmin"), ("exclusiveMaximum", "xmax")):
            if c.get(f) is not None:
                s[key] = c[f] if isinstance(c[f], bool) else half(c[f])
        return s
    if k == "S":
        s = {"type": "string"}
        if t[1] is not None:
            s["minLength"] = t[1]
        if t[2] is not None:
            s["maxLength"] = t[2]
        return s
    if k == "B":
        return {"type": "boolean"}
    if k == "Z":
        return {"type": "null"}
    if k == "Y":
        return {}
    if k == "E":
        return {"type": "string", "enum": list(t[1])}
    if k == "?":
        s = to_jsonschema(t[1])
        s["type"] = [s["type"], "null"]
        return s
    if k == "A":
        s = {"type": "array", "items": to_jsonschema(t[1])}
        if t[2] is not None:
            s["minItems"] = t[2]
        if t[3] is not None:
            s["maxItems"] = t[3]
        return s
    if k == "M":
        return {"type": "object", "additionalProperties": to_jsonschema(t[1])}
    if k == "U":
        return {"anyOf": [to_jsonschema(a) for a in t[1]]}
    if k == "J":
        s = {"type": "object", "properties": {n: to_jsonschema(x) for n, r, x in t[1]}}
        req = [n for n, r, x in t[1] if r]
        if req:
            s["required"] = req
        if t[2]:
            s["additionalProperties"] = False
        return s
    raise ValueError(k)


# ------------------------------------------------------------------------------------------------------
# generator of terms inside the modelled sub-language


def gen_int(rng):
    c = {}
    if rng.random() < 0.7:
        lo = rng.choice([0, 1, -5, 10])
        style = rng.choice(["incl", "x6", "x4t", "x4f"])
        if style == "incl":
            c["min"] = 2 * lo
        elif style == "x6":
            c["xmin"] = 2 * lo
        elif style == "x4t":
            c["min"], c["xmin"] = 2 * lo, True
        else:
            c["min"], c["xmin"] = 2 * lo, False
        if rng.random() < 0.6:
            hi = lo + rng.choice([1, 3, 10, 100])
            style = rng.choice(["incl", "x6", "x4t", "x4f"])
            if style == "incl":
                c["max"] = 2 * hi
            elif style == "x6":
                c["xmax"] = 2 * hi
            elif style == "x4t":
                c["max"], c["xmax"] = 2 * hi, True
            else:
                c["max"], c["xmax"] = 2 * hi, False
    if rng.random() < 0.15:
        c["mult"] = rng.choice([2, 5])
    return ("I", c)


def gen_num(rng):
    """a number member with bounds in half units (x.0 or x.5), either draft spelling"""
    c = {}
    lo = rng.choice([0, 1, -5, 3, 21])      # halves: 0, 0.5, -2.5, 1.5, 10.5
    style = rng.choice(["incl", "x6", "x4t", "x4f"])
    if style == "incl":
        c["min"] = lo
    elif style == "x6":
        c["xmin"] = lo
    else:
        c["min"], c["xmin"] = lo, style == "x4t"
    if rng.random() < 0.6:
        hi = lo + rng.choice([1, 3, 10, 200])
        style = rng.choice(["incl", "x6", "x4t", "x4f"])
        if style == "incl":
            c["max"] = hi
        elif style == "x6":
            c["xmax"] = hi
        else:
            c["max"], c["xmax"] = hi, style == "x4t"
    return ("F", c)


def gen_str(rng):
    lo = rng.choice([None, None, 0, 1, 3])
    hi = None if rng.random() < 0.5 else (lo or 0) + rng.choice([0, 2, 10])
    return ("S", lo, hi)


def gen_scalar(rng):
    r = rng.random()
    if r < 0.3:
        return gen_int(rng)
    if r < 0.6:
        return gen_str(rng)
    if r < 0.75:
        return ("B",)
    if r < 0.82:
        return ("N",)
    if r < 0.88:
        return gen_num(rng)
    return ("E", rng.sample(["a", "b", "c d", "e-f", "G", "1x", "é"], rng.choice([1, 2, 3])))


def gen_inner(rng, depth):
    """array items / map values / anyOf members"""
    r = rng.random()
    if r < 0.6 or depth >= 3:
        return gen_scalar(rng)
    if r < 0.75:
        return ("A", gen_inner(rng, depth + 1), None, None) if rng.random() < 0.8 else ("A", gen_inner(rng, depth + 1), rng.choice([1, 2]), None)
    if r < 0.85:
        return ("M", gen_scalar(rng))
    return gen_obj(rng, depth + 1)


def gen_member(rng, depth):
    r = rng.random()
    if r < 0.45:
        s = gen_scalar(rng)
        if s[0] != "E" and rng.random() < 0.2:
            return ("?", s)
        return s
    if r < 0.5:
        return ("Z",)
    if r < 0.68:
        lo = rng.choice([None, None, 0, 1, 2])
        hi = None if rng.random() < 0.6 else (lo or 0) + rng.choice([0, 1, 3])
        return ("A", gen_inner(rng, depth + 1), lo, hi)
    if r < 0.76:
        return ("M", gen_inner(rng, depth + 1))
    if r < 0.86:
        kinds = rng.sample(["S", "I", "B", "A", "J", "E"], rng.choice([2, 2, 3]))
        alts = []
        for k in kinds:
            alts.append({"S": lambda: gen_str(rng), "I": lambda: gen_int(rng), "B": lambda: ("B",),
                         "A": lambda: ("A", gen_scalar(rng), None, None), "J": lambda: gen_obj(rng, depth + 2),
                         "E": lambda: ("E", rng.sample(["p", "q", "r s"], 2))}[k]())
        if "S" in kinds and "E" in kinds:
            alts = [a for a in alts if a[0] != "E"]
        return ("U", alts) if len(alts) >= 2 else alts[0]
    if depth < 2:
        return gen_obj(rng, depth + 1)
    return gen_scalar(rng)


def gen_obj(rng, depth=0):
    n = rng.choice([1, 2, 3, 4])
    names = rng.sample(NAME_POOL, n)
    props = []
    for nm in names:
        m = gen_member(rng, depth)
        props.append((nm, rng.random() < 0.5 and m[0] != "?", m))   # required + [T, null] is C05's subject, outside this model
    return ("J", props, rng.random() < 0.2)


def constrained_scalar(t):
    return (t[0] in ("I", "F") and any(v is not None for v in t[1].values())) or (t[0] == "S" and (t[1] is not None or t[2] is not None))


def map_of_constrained(t):
    """(no longer needed by the comparison: M10 models the dropped bounds of map values) a constrained scalar directly as map value"""
    return contains(t, lambda x: x[0] == "M" and constrained_scalar(x[1]))


def contains(t, pred):
    if pred(t):
        return True
    k = t[0]
    if k in ("?", "A", "M"):
        return contains(t[1], pred)
    if k == "U":
        return any(contains(a, pred) for a in t[1])
    if k == "J":
        return any(contains(s, pred) for _, _, s in t[1])
    return False


# ------------------------------------------------------------------------------------------------------
# instances


def gen_instance(rng, t, valid=True, depth=0):
    """an instance that is meant to be valid (mostly) - the verdict itself always comes from the reference validator"""
    k = t[0]
    if k == "I":
        c = t[1]
        cand = [0, 1, -5, 10, 11, 13, 20, 110, 2, 5, -6, 9]
        return rng.choice(cand)
    if k == "N":
        return rng.choice([0, 3, -2, 0.5, -2.5])
    if k == "F":
        return rng.choice([0, 1, -3, 5, 11, 0.5, 1.5, -2.5, 10.5, 100.5, 2, 12])
    if k == "S":
        n = rng.choice([t[1] or 0, t[2] if t[2] is not None else (t[1] or 0) + 1, (t[1] or 0) + 1])
        return "a" * n
    if k == "B":
        return rng.choice([True, False])
    if k == "Z":
        return None
    if k == "E":
        return rng.choice(t[1])
    if k == "?":
        return None if rng.random() < 0.4 else gen_instance(rng, t[1], valid, depth)
    if k == "A":
        n = rng.choice([t[2] or 0, t[3] if t[3] is not None else (t[2] or 0) + 1])
        return [gen_instance(rng, t[1], valid, depth + 1) for _ in range(min(n, 4))]
    if k == "M":
        return {key: gen_instance(rng, t[1], valid, depth + 1) for key in rng.sample(["k1", "k2", "class"], rng.choice([0, 1, 2]))}
    if k == "U":
        return gen_instance(rng, rng.choice(t[1]), valid, depth + 1)
    if k == "J":
        out = {}
        for n, r, s in t[1]:
            if r or rng.random() < 0.5:
                out[n] = gen_instance(rng, s, valid, depth + 1)
        return out
    raise ValueError(k)


def mutate(rng, t, v):
    """one random small change somewhere in the instance (may or may not invalidate it)"""
    k = t[0]
    r = rng.random()
    if k == "J" and isinstance(v, dict):
        v = dict(v)
        present = [(n, req, s) for n, req, s in t[1] if n in v]
        if r < 0.25 and present:
            n, _, _ = rng.choice(present)
            del v[n]
            return v
        if r < 0.35:
            v["zz_extra"] = 1
            return v
        if r < 0.45 and present:
            n, _, _ = rng.choice(present)
            v[n] = None
            return v
        if present:
            n, _, s = rng.choice(present)
            v[n] = mutate(rng, s, v[n])
        return v
    if k == "A" and isinstance(v, list):
        if r < 0.3 and v:
            return v[:-1]
        if r < 0.6:
            return v + ([v[0]] if v else [gen_instance(rng, t[1])])
        if v:
            v = list(v)
            v[0] = mutate(rng, t[1], v[0])
        return v
    if k == "M" and isinstance(v, dict) and v:
        v = dict(v)
        key = next(iter(v))
        v[key] = mutate(rng, t[1], v[key])
        return v
    if k == "?":
        return mutate(rng, t[1], v) if v is not None else v
    if k == "U":
        return rng.choice([None, [], {}, "zz", 7, True])
    if k == "I":
        return rng.choice([v + 1, v - 1, "zz", None, [1]]) if isinstance(v, int) else 3
    if k == "S":
        return rng.choice([v + "a", v[:-1], 5, None, ["x"]]) if isinstance(v, str) else "s"
    if k == "E":
        return rng.choice(["not-a-member", 3, None])
    if k == "B":
        return rng.choice(["zz", None, [True]])
    if k in ("N", "F"):
        return rng.choice(["zz", None, [1]]) if (k == "N" or rng.random() < 0.4) else (v + rng.choice([0.5, -0.5, 1, -1, 10]) if isinstance(v, (int, float)) and not isinstance(v, bool) else 1.5)
    if k == "Z":
        return rng.choice(["zz", 0, []])
    return v


def exactly_typed(v):
    """instances inside the model's JSON domain: numbers are integers or odd multiples of one half (a float with an integral value is
    ambiguous between the two JSON number spellings and left out)"""
    if isinstance(v, float):
        return v * 2 == int(v * 2) and int(v * 2) % 2 == 1
    if isinstance(v, list):
        return all(exactly_typed(x) for x in v)
    if isinstance(v, dict):
        return all(exactly_typed(x) for x in v.values())
    return True


# ------------------------------------------------------------------------------------------------------
# canonical text of the real output


class Unmodelled(Exception):
    pass


def _on(x):
    return "~" if x is None else str(x)


def canon_module(text, root="Root"):
    """the class `root` of a generated pydantic module in the text form of Schema.show_ty"""
    tree = ast.parse(text)
    classes = {n.name: n for n in tree.body if isinstance(n, ast.ClassDef)}

    def base_names(c):
        out = []
        for b in c.bases:
            if isinstance(b, ast.Subscript):
                b = b.value
            out.append(b.id if isinstance(b, ast.Name) else ast.unparse(b))
        return out

    def const(n):
        try:
            v = ast.literal_eval(n)
        except Exception:  # noqa: BLE001
            raise Unmodelled("non-literal " + ast.unparse(n))
        return int(v) if isinstance(v, float) and v == int(v) else v

    def apply_kw(ty, kw):
        """merge Field(...) / con*(...) keyword arguments into a canonical type (a list form)"""
        ty = list(ty)
        num = {k: kw.pop(k) for k in ("ge", "le", "gt", "lt", "multiple_of") if k in kw}
        ln = {}
        for a, b in (("min_length", "lo"), ("max_length", "hi"), ("min_items", "lo"), ("max_items", "hi")):
            if a in kw:
                ln[b] = kw.pop(a)
        target = ty
        while target[0] == "opt":
            target[1] = list(target[1])
            target = target[1]
        if num:
            if target[0] == "float":
                if "multiple_of" in num:
                    raise Unmodelled("multiple_of on float")
                for i, k in enumerate(("ge", "le", "gt", "lt")):
                    if k in num:
                        h = num[k] * 2
                        if h != int(h):
                            raise Unmodelled("float bound that is not a multiple of one half")
                        target[1 + i] = int(h)
            elif target[0] != "int":
                raise Unmodelled(f"numeric keyword on {target[0]}")
            else:
                for i, k in enumerate(("ge", "le", "gt", "lt", "multiple_of")):
                    if k in num:
                        target[1 + i] = num[k]
        if ln:
            if target[0] == "str":
                target[1] = ln.get("lo", target[1])
                target[2] = ln.get("hi", target[2])
            elif target[0] == "list":
                target[1] = ln.get("lo", target[1])
                target[2] = ln.get("hi", target[2])
            else:
                raise Unmodelled(f"length keyword on {target[0]}")
        for k in ("regex", "pattern"):
            if k in kw:
                raise Unmodelled("pattern")
        return ty

    def ty_of(node):
        if isinstance(node, ast.Constant) and node.value is None:
            return ["none"]
        if isinstance(node, ast.Constant) and isinstance(node.value, str):
            return ty_of(ast.parse(node.value, mode="eval").body)
        if isinstance(node, ast.Name):
            nm = node.id
            if nm == "int":
                return ["int", None, None, None, None, None]
            if nm == "str":
                return ["str", None, None]
            if nm == "float":
                return ["float", None, None, None, None]
            if nm == "bool":
                return ["bool"]
            if nm == "Any":
                return ["any"]
            if nm in classes:
                return class_ty(classes[nm])
            if nm in ("List", "list", "Sequence"):
                return ["list", None, None, ["any"]]
            if nm in ("Dict", "dict", "Mapping"):
                return ["dict", ["any"]]
            special = {"PositiveInt": ("gt", 0), "NegativeInt": ("lt", 0), "NonNegativeInt": ("ge", 0), "NonPositiveInt": ("le", 0)}
            if nm in special:
                return apply_kw(["int", None, None, None, None, None], {special[nm][0]: special[nm][1]})
            fspecial = {"PositiveFloat": ("gt", 0), "NegativeFloat": ("lt", 0), "NonNegativeFloat": ("ge", 0), "NonPositiveFloat": ("le", 0)}
            if nm in fspecial:
                return apply_kw(["float", None, None, None, None], {fspecial[nm][0]: fspecial[nm][1]})
            if nm in classes:
                return class_ty(classes[nm])
            raise Unmodelled("name " + nm)
        if isinstance(node, ast.Call) and isinstance(node.func, ast.Name):
            kw = {k.arg: const(k.value) for k in node.keywords}
            base = {"conint": ["int", None, None, None, None, None], "constr": ["str", None, None],
                    "confloat": ["float", None, None, None, None]}.get(node.func.id)
            if base is None:
                raise Unmodelled("call " + node.func.id)
            out = apply_kw(base, kw)
            if kw:
                raise Unmodelled("keywords " + ",".join(kw))
            return out
        if isinstance(node, ast.Subscript) and isinstance(node.value, ast.Name):
            nm = node.value.id
            args = list(node.slice.elts) if isinstance(node.slice, ast.Tuple) else [node.slice]
            if nm == "Optional":
                inner = ty_of(args[0])
                return inner if inner == ["none"] else ["opt", inner]
            if nm in ("List", "list", "Sequence"):
                return ["list", None, None, ty_of(args[0])]
            if nm in ("Dict", "dict", "Mapping"):
                if ast.unparse(args[0]) != "str":
                    raise Unmodelled("dict key")
                return ["dict", ty_of(args[1])]
            if nm == "Union":
                alts = [ty_of(a) for a in args]
                nn = [a for a in alts if a != ["none"]]
                u = nn[0] if len(nn) == 1 else ["union", nn]
                return ["opt", u] if len(nn) != len(alts) else u
            raise Unmodelled("subscript " + nm)
        if isinstance(node, ast.BinOp) and isinstance(node.op, ast.BitOr):
            parts = []

            def flat(n):
                if isinstance(n, ast.BinOp) and isinstance(n.op, ast.BitOr):
                    flat(n.left)
                    flat(n.right)
                else:
                    parts.append(n)
            flat(node)
            alts = [ty_of(a) for a in parts]
            nn = [a for a in alts if a != ["none"]]
            u = nn[0] if len(nn) == 1 else ["union", nn]
            return ["opt", u] if len(nn) != len(alts) else u
        raise Unmodelled("annotation " + ast.unparse(node))

    def field_of(st):
        ann = st.annotation
        if isinstance(ann, ast.Subscript) and isinstance(ann.value, ast.Name) and ann.value.id == "Annotated":
            elts = ann.slice.elts
            ann, meta = elts[0], elts[1:]
        else:
            meta = []
        t = ty_of(ann)
        required, alias, kw = True, None, {}
        calls = [m for m in meta if isinstance(m, ast.Call)]
        v = st.value
        if isinstance(v, ast.Call) and isinstance(v.func, ast.Name) and v.func.id == "Field":
            calls.append(v)
            v = None
        elif v is not None:
            required = False
            if not (isinstance(v, ast.Constant) and v.value is None):
                raise Unmodelled("default value")
        for c in calls:
            if c.args:
                a0 = c.args[0]
                if isinstance(a0, ast.Constant) and a0.value is Ellipsis:
                    required = True
                elif isinstance(a0, ast.Constant) and a0.value is None:
                    required = False
                else:
                    raise Unmodelled("default value")
            for k in c.keywords:
                if k.arg == "alias":
                    alias = const(k.value)
                elif k.arg in ("title", "description", "examples", "example"):
                    continue
                else:
                    kw[k.arg] = const(k.value)
        t = apply_kw(t, kw)
        if kw:
            raise Unmodelled("field keywords " + ",".join(kw))
        null = t[0] in ("opt", "none")
        if t[0] == "opt":
            t = t[1]
        return st.target.id, alias, required, (null or not required), t

    done = {}

    def class_ty(c):
        if c.name in done:
            if done[c.name] is None:
                raise Unmodelled("recursive class")
            return done[c.name]
        done[c.name] = None
        bases = base_names(c)
        if "Enum" in bases:
            vals = []
            for st in c.body:
                if isinstance(st, ast.Assign):
                    vals.append(const(st.value))
            out = ["enum", vals]
        else:
            fields, forbid, rootf = [], False, None
            for st in c.body:
                if isinstance(st, ast.Assign) and ast.unparse(st.targets[0]) == "model_config":
                    for k in st.value.keywords:
                        if k.arg == "extra":
                            forbid = const(k.value) == "forbid"
                        else:
                            raise Unmodelled("model_config " + k.arg)
                elif isinstance(st, ast.ClassDef) and st.name == "Config":
                    for s2 in st.body:
                        if isinstance(s2, ast.Assign) and ast.unparse(s2.targets[0]) == "extra":
                            forbid = ast.unparse(s2.value) == "Extra.forbid"
                        elif isinstance(s2, ast.Pass):
                            pass
                        else:
                            raise Unmodelled("Config " + ast.unparse(s2))
                elif isinstance(st, ast.AnnAssign):
                    f = field_of(st)
                    if f[0] in ("root", "__root__") and ("RootModel" in bases or f[0] == "__root__"):
                        rootf = f
                    else:
                        fields.append(f)
                elif isinstance(st, (ast.Pass, ast.Expr)):
                    pass
                else:
                    raise Unmodelled("class statement " + ast.unparse(st)[:40])
            if rootf is not None:
                _, _, req, null, t = rootf
                out = ["opt", t] if (null and t[0] != "none") else t
            else:
                if any(b not in ("BaseModel",) for b in bases):
                    raise Unmodelled("base classes " + ",".join(bases))
                out = ["model", forbid, fields]
        done[c.name] = out
        return out

    if root not in classes:
        raise Unmodelled("no class " + root)
    return show(class_ty(classes[root]))


def show_name(s):
    return enc(s)


def show(t):
    k = t[0]
    if k == "int":
        return "(int " + " ".join(_on(x) for x in t[1:6]) + ")"
    if k == "str":
        return f"(str {_on(t[1])} {_on(t[2])})"
    if k == "float":
        return "(float)" if all(x is None for x in t[1:5]) else "(floatc " + " ".join(_on(x) for x in t[1:5]) + ")"
    if k in ("bool", "none", "any"):
        return f"({k})"
    if k == "enum":
        return "(enum" + "".join(" " + (show_name(v) if isinstance(v, str) else f"!{v!r}") for v in t[1]) + ")"
    if k == "opt":
        return f"(opt {show(t[1])})"
    if k == "list":
        return f"(list {_on(t[1])} {_on(t[2])} {show(t[3])})"
    if k == "dict":
        return f"(dict {show(t[1])})"
    if k == "union":
        return "(union" + "".join(" " + show(a) for a in t[1]) + ")"
    if k == "model":
        return f"(model {int(t[1])}" + "".join(
            f" (f {show_name(py)} {show_name(al) if al is not None else '~'} {int(req)} {int(null)} {show(ty)})" for py, al, req, null, ty in t[2]) + ")"
    raise ValueError(k)


def term_of_genson(s):
    """a schema as the genson package prints it -> term (a type list is read as the union of its members, null making it optional)"""
    if not s:
        return ("Y",)
    if "anyOf" in s:
        return ("U", [term_of_genson(a) for a in s["anyOf"]])
    t = s.get("type")
    if isinstance(t, list):
        nn = [x for x in t if x != "null"]
        parts = [term_of_genson(dict(s, type=x)) for x in nn]
        base = parts[0] if len(parts) == 1 else ("U", parts)
        return ("?", base) if len(nn) != len(t) else base
    if t == "integer":
        return ("I", {})
    if t == "number":
        return ("N",)
    if t == "string":
        return ("S", None, None)
    if t == "boolean":
        return ("B",)
    if t == "null":
        return ("Z",)
    if t == "array":
        return ("A", term_of_genson(s.get("items", {})), None, None)
    if t == "object":
        if not s.get("properties"):
            return ("M", ("Y",))
        req = set(s.get("required", []))
        return ("J", [(k, k in req, term_of_genson(v)) for k, v in s["properties"].items()], False)
    raise ValueError(s)
